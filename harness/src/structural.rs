//! Shared machinery of the structural-edit checks (C12 insert, C13 delete, C14 insert+delete, C15 move; helpers
//! for C33 and C31): a workbook builder, a reference displacement model and a reader of the cells a formula denotes.
//!
//! Everything is expressed in *axis coordinates* `(t, lane)`: `t` runs along the edited axis (the row number when rows
//! are edited, the column number when columns are edited), `lane` across it. The same builder and the same oracle thus
//! serve both orientations; only the A1 texts differ.

use crate::obs;
use crate::report::Disagreement;
use ironcalc_base::cell::CellValue;
use ironcalc_base::expressions::parser::{Node, Parser};
use ironcalc_base::expressions::token::Error;
use ironcalc_base::expressions::types::CellReferenceRC;
use ironcalc_base::language::get_language;
use ironcalc_base::locale::get_locale;
use ironcalc_base::types::{ArrayKind, Cell, Link, Style};
use ironcalc_base::{Model, UserModel};
use serde::{Deserialize, Serialize};
use serde_json::{json, Value};
use std::collections::{BTreeMap, BTreeSet, HashMap};

pub const LAST_ROW: i32 = 1_048_576;
pub const LAST_COL: i32 = 16_384;

// ---------------------------------------------------------------------------------------------------------------
// axis, operations, displacement model
// ---------------------------------------------------------------------------------------------------------------

#[derive(Clone, Copy, PartialEq, Eq, Debug, Serialize, Deserialize, PartialOrd, Ord)]
pub enum Axis {
    Rows,
    Cols,
}

impl Axis {
    /// (row, column) of axis coordinates
    pub fn rc(self, t: i32, lane: i32) -> (i32, i32) {
        match self {
            Axis::Rows => (t, lane),
            Axis::Cols => (lane, t),
        }
    }
    /// axis coordinates (t, lane) of (row, column)
    pub fn tl(self, row: i32, col: i32) -> (i32, i32) {
        match self {
            Axis::Rows => (row, col),
            Axis::Cols => (col, row),
        }
    }
    /// last index along the edited axis
    pub fn last(self) -> i32 {
        match self {
            Axis::Rows => LAST_ROW,
            Axis::Cols => LAST_COL,
        }
    }
    /// last index across the edited axis
    pub fn last_lane(self) -> i32 {
        match self {
            Axis::Rows => LAST_COL,
            Axis::Cols => LAST_ROW,
        }
    }
    pub fn name(self) -> &'static str {
        match self {
            Axis::Rows => "rows",
            Axis::Cols => "cols",
        }
    }
}

#[derive(Clone, Copy, PartialEq, Eq, Debug, Serialize, Deserialize)]
pub enum Api {
    Model,
    User,
}

/// A structural operation along the axis. `Insert{p,k}`: k blank positions at p. `Delete{p,k}`: positions p..p+k-1.
/// `Move{s,n,d}`: block s..s+n-1 by d.
#[derive(Clone, Copy, PartialEq, Eq, Debug, Serialize, Deserialize)]
pub enum SOp {
    Insert { p: i32, k: i32 },
    Delete { p: i32, k: i32 },
    Move { s: i32, n: i32, d: i32 },
}

impl SOp {
    pub fn kind(&self) -> &'static str {
        match self {
            SOp::Insert { .. } => "insert",
            SOp::Delete { .. } => "delete",
            SOp::Move { .. } => "move",
        }
    }
}

#[derive(Clone, Copy, PartialEq, Eq, Debug)]
pub enum Moved {
    At(i32),
    Deleted,
    PushedOff,
}

/// Where position `t` goes.
pub fn map_t(op: &SOp, t: i32, last: i32) -> Moved {
    match *op {
        SOp::Insert { p, k } => {
            if t < p {
                Moved::At(t)
            } else if t + k > last {
                Moved::PushedOff
            } else {
                Moved::At(t + k)
            }
        }
        SOp::Delete { p, k } => {
            if t < p {
                Moved::At(t)
            } else if t < p + k {
                Moved::Deleted
            } else {
                Moved::At(t - k)
            }
        }
        SOp::Move { s, n, d } => {
            if t >= s && t < s + n {
                Moved::At(t + d)
            } else if d > 0 && t >= s + n && t < s + n + d {
                Moved::At(t - n)
            } else if d < 0 && t >= s + d && t < s {
                Moved::At(t + n)
            } else {
                Moved::At(t)
            }
        }
    }
}

/// Where a link key / cell goes: same as `map_t` on its axis coordinate.
pub fn map_cell(op: &SOp, axis: Axis, row: i32, col: i32) -> Option<(i32, i32)> {
    let (t, lane) = axis.tl(row, col);
    match map_t(op, t, axis.last()) {
        Moved::At(t2) => Some(axis.rc(t2, lane)),
        _ => None,
    }
}

#[derive(Clone, Copy, PartialEq, Eq, Debug)]
pub enum RangeFate {
    /// must denote exactly i..j
    Exact(i32, i32),
    /// every cell it denoted is gone (deleted or pushed off): must be #REF!
    AllGone,
    /// lost one end: "#REF!" or exactly the survivors
    Partial(i32, i32),
    /// the statement does not say
    Unjudged,
}

/// Where the interval i..=j (i <= j) of axis positions goes.
pub fn map_range(op: &SOp, i: i32, j: i32, last: i32) -> RangeFate {
    if i == 1 && j == last {
        // a full row/column range stays the full row/column (nothing can grow it, nothing it loses shrinks it)
        return match op {
            SOp::Move { .. } => RangeFate::Unjudged,
            _ => RangeFate::Exact(1, last),
        };
    }
    match *op {
        SOp::Insert { .. } => match (map_t(op, i, last), map_t(op, j, last)) {
            (Moved::At(a), Moved::At(b)) => RangeFate::Exact(a, b),
            (Moved::At(a), Moved::PushedOff) => RangeFate::Partial(a, last),
            _ => RangeFate::AllGone,
        },
        SOp::Delete { p, k } => {
            let (q, r) = (p, p + k - 1); // deleted band
            if i >= q && j <= r {
                return RangeFate::AllGone;
            }
            let lo_ok = !(i >= q && i <= r);
            let hi_ok = !(j >= q && j <= r);
            let m = |t: i32| match map_t(op, t, last) {
                Moved::At(x) => x,
                _ => unreachable!(),
            };
            if lo_ok && hi_ok {
                RangeFate::Exact(m(i), m(j))
            } else if lo_ok {
                // survivors i..q-1
                RangeFate::Partial(m(i), m(q - 1))
            } else {
                // survivors r+1..j
                RangeFate::Partial(m(r + 1), m(j))
            }
        }
        SOp::Move { s, n, d } => {
            let (b0, b1) = (s, s + n - 1);
            let (d0, d1) = if d > 0 { (s + n, s + n - 1 + d) } else { (s + d, s - 1) };
            let inside = |a: i32, b: i32| i >= a && j <= b;
            let disjoint = |a: i32, b: i32| j < a || i > b;
            let m = |t: i32| match map_t(op, t, last) {
                Moved::At(x) => x,
                _ => unreachable!(),
            };
            if inside(b0, b1) || inside(d0, d1) || (disjoint(b0, b1) && disjoint(d0, d1)) {
                RangeFate::Exact(m(i), m(j))
            } else {
                RangeFate::Unjudged
            }
        }
    }
}

/// true if the interval i..=j contains a deleted position
pub fn reads_deleted(op: &SOp, i: i32, j: i32) -> bool {
    match *op {
        SOp::Delete { p, k } => !(j < p || i > p + k - 1),
        _ => false,
    }
}

// ---------------------------------------------------------------------------------------------------------------
// A1 texts
// ---------------------------------------------------------------------------------------------------------------

pub fn col_name(mut c: i32) -> String {
    let mut s = String::new();
    while c > 0 {
        let r = ((c - 1) % 26) as u8;
        s.insert(0, (b'A' + r) as char);
        c = (c - 1) / 26;
    }
    s
}

pub fn a1(row: i32, col: i32, abs_row: bool, abs_col: bool) -> String {
    format!(
        "{}{}{}{}",
        if abs_col { "$" } else { "" },
        col_name(col),
        if abs_row { "$" } else { "" },
        row
    )
}

/// reference text of axis coordinates
pub fn rf(axis: Axis, t: i32, lane: i32, abs_t: bool, abs_lane: bool) -> String {
    let (r, c) = axis.rc(t, lane);
    match axis {
        Axis::Rows => a1(r, c, abs_t, abs_lane),
        Axis::Cols => a1(r, c, abs_lane, abs_t),
    }
}

/// the whole lane (Rows: a full column `A:A`; Cols: a full row `1:1`)
pub fn full_lane(axis: Axis, lane: i32) -> String {
    match axis {
        Axis::Rows => format!("{0}:{0}", col_name(lane)),
        Axis::Cols => format!("{0}:{0}", lane),
    }
}

/// everything at position t (Rows: the full row `3:3`; Cols: the full column `C:C`)
pub fn full_t(axis: Axis, t: i32) -> String {
    match axis {
        Axis::Rows => format!("{0}:{0}", t),
        Axis::Cols => format!("{0}:{0}", col_name(t)),
    }
}

// ---------------------------------------------------------------------------------------------------------------
// what a formula denotes
// ---------------------------------------------------------------------------------------------------------------

#[derive(Clone, PartialEq, Eq, Debug)]
pub enum Den {
    Cell { sheet: u32, row: i32, col: i32 },
    Range { sheet: u32, r1: i32, c1: i32, r2: i32, c2: i32 },
    /// `#REF!`
    RefErr,
    /// a range one end of which is `#REF!`
    PartialRef,
    /// a reference to something that is not on the grid / not a sheet
    Wrong(String),
    NoRef,
}

impl Den {
    pub fn class(&self) -> &'static str {
        match self {
            Den::Cell { .. } => "cell",
            Den::Range { .. } => "range",
            Den::RefErr => "#REF!",
            Den::PartialRef => "range-with-#REF!-end",
            Den::Wrong(_) => "wrong-reference",
            Den::NoRef => "no-reference",
        }
    }
    pub fn has_ref_error(&self) -> bool {
        matches!(self, Den::RefErr | Den::PartialRef)
    }
}

fn on_grid(row: i32, col: i32) -> bool {
    (1..=LAST_ROW).contains(&row) && (1..=LAST_COL).contains(&col)
}

/// The first reference of the formula (pre-order), as absolute cells; `ctx` = (row, column) of the formula's cell.
pub fn first_ref(node: &Node, ctx: (i32, i32)) -> Den {
    use Node::*;
    match node {
        ReferenceKind {
            sheet_index,
            absolute_row,
            absolute_column,
            row,
            column,
            ..
        } => {
            let r = if *absolute_row { *row } else { *row + ctx.0 };
            let c = if *absolute_column { *column } else { *column + ctx.1 };
            if !on_grid(r, c) {
                return Den::Wrong(format!("R{}C{} off the grid", r, c));
            }
            Den::Cell {
                sheet: *sheet_index,
                row: r,
                col: c,
            }
        }
        RangeKind {
            sheet_index,
            absolute_row1,
            absolute_column1,
            row1,
            column1,
            absolute_row2,
            absolute_column2,
            row2,
            column2,
            ..
        } => {
            let r1 = if *absolute_row1 { *row1 } else { *row1 + ctx.0 };
            let c1 = if *absolute_column1 { *column1 } else { *column1 + ctx.1 };
            let r2 = if *absolute_row2 { *row2 } else { *row2 + ctx.0 };
            let c2 = if *absolute_column2 { *column2 } else { *column2 + ctx.1 };
            if !on_grid(r1, c1) || !on_grid(r2, c2) {
                return Den::Wrong(format!("R{}C{}:R{}C{} off the grid", r1, c1, r2, c2));
            }
            Den::Range {
                sheet: *sheet_index,
                r1: r1.min(r2),
                c1: c1.min(c2),
                r2: r1.max(r2),
                c2: c1.max(c2),
            }
        }
        WrongReferenceKind { .. } | WrongRangeKind { .. } => Den::Wrong("unknown sheet".into()),
        ErrorKind(Error::REF) => Den::RefErr,
        ErrorKind(_) => Den::NoRef,
        OpRangeKind { left, right } => {
            let a = first_ref(left, ctx);
            let b = first_ref(right, ctx);
            match (a, b) {
                (Den::RefErr, Den::RefErr) => Den::RefErr,
                (Den::RefErr, _) | (_, Den::RefErr) | (Den::PartialRef, _) | (_, Den::PartialRef) => Den::PartialRef,
                (
                    Den::Cell { sheet, row, col },
                    Den::Cell {
                        row: row2, col: col2, ..
                    },
                ) => Den::Range {
                    sheet,
                    r1: row.min(row2),
                    c1: col.min(col2),
                    r2: row.max(row2),
                    c2: col.max(col2),
                },
                (a, _) => a,
            }
        }
        OpConcatenateKind { left, right }
        | OpSumKind { left, right, .. }
        | OpProductKind { left, right, .. }
        | OpPowerKind { left, right }
        | CompareKind { left, right, .. } => match first_ref(left, ctx) {
            Den::NoRef => first_ref(right, ctx),
            d => d,
        },
        UnaryKind { right, .. } => first_ref(right, ctx),
        ImplicitIntersection { child, .. } | SpillRangeOperator { child } => first_ref(child, ctx),
        FunctionKind { args, .. } | NamedFunctionKind { args, .. } => {
            for a in args {
                match first_ref(a, ctx) {
                    Den::NoRef => {}
                    d => return d,
                }
            }
            Den::NoRef
        }
        LambdaCallKind { lambda, args } => {
            match first_ref(lambda, ctx) {
                Den::NoRef => {}
                d => return d,
            }
            for a in args {
                match first_ref(a, ctx) {
                    Den::NoRef => {}
                    d => return d,
                }
            }
            Den::NoRef
        }
        LambdaDefKind { body, .. } => first_ref(body, ctx),
        ParseErrorKind { message, .. } => Den::Wrong(format!("parse error: {}", message)),
        _ => Den::NoRef,
    }
}

/// Every reference of the formula in pre-order, as absolute cells.
pub fn all_refs(node: &Node, ctx: (i32, i32), out: &mut Vec<Den>) {
    use Node::*;
    match node {
        ReferenceKind { .. } | RangeKind { .. } | WrongReferenceKind { .. } | WrongRangeKind { .. } | ErrorKind(Error::REF) => {
            out.push(first_ref(node, ctx))
        }
        OpRangeKind { .. } => out.push(first_ref(node, ctx)),
        OpConcatenateKind { left, right }
        | OpSumKind { left, right, .. }
        | OpProductKind { left, right, .. }
        | OpPowerKind { left, right }
        | CompareKind { left, right, .. } => {
            all_refs(left, ctx, out);
            all_refs(right, ctx, out);
        }
        UnaryKind { right, .. } => all_refs(right, ctx, out),
        ImplicitIntersection { child, .. } | SpillRangeOperator { child } => all_refs(child, ctx, out),
        FunctionKind { args, .. } | NamedFunctionKind { args, .. } => {
            for a in args {
                all_refs(a, ctx, out);
            }
        }
        LambdaCallKind { lambda, args } => {
            all_refs(lambda, ctx, out);
            for a in args {
                all_refs(a, ctx, out);
            }
        }
        LambdaDefKind { body, .. } => all_refs(body, ctx, out),
        ParseErrorKind { message, .. } => out.push(Den::Wrong(format!("parse error: {}", message))),
        _ => {}
    }
}

/// A parser set up for `model` (English), reusable for many formulas.
pub struct Reader<'a> {
    parser: Parser<'a>,
    names: Vec<String>,
}

impl<'a> Reader<'a> {
    pub fn new(model: &Model) -> Reader<'static> {
        let names = model.workbook.get_worksheet_names();
        let locale = get_locale("en").expect("locale");
        let language = get_language("en").expect("language");
        Reader {
            parser: Parser::new(
                names.clone(),
                model.workbook.get_defined_names_with_scope(),
                HashMap::new(),
                locale,
                language,
            ),
            names,
        }
    }
    /// what the formula text (as `get_cell_formula` prints it, with or without `=`) at (sheet,row,col) denotes
    pub fn den(&mut self, text: &str, sheet: u32, row: i32, col: i32) -> Den {
        let ctx = CellReferenceRC {
            sheet: self.names.get(sheet as usize).cloned().unwrap_or_default(),
            row,
            column: col,
        };
        let body = text.strip_prefix('=').unwrap_or(text);
        let node = self.parser.parse(body, &ctx);
        match first_ref(&node, (row, col)) {
            // the engine prints a range that lost an end as `A1:#REF!` (documented), which its parser does not read back
            Den::Wrong(w) if w.starts_with("parse error") && body.contains("#REF!") => Den::PartialRef,
            d => d,
        }
    }
}

impl<'a> Reader<'a> {
    /// every reference of the formula text at (sheet,row,col), in order
    pub fn dens(&mut self, text: &str, sheet: u32, row: i32, col: i32) -> Vec<Den> {
        let ctx = CellReferenceRC {
            sheet: self.names.get(sheet as usize).cloned().unwrap_or_default(),
            row,
            column: col,
        };
        let body = text.strip_prefix('=').unwrap_or(text);
        let node = self.parser.parse(body, &ctx);
        let mut out = vec![];
        all_refs(&node, (row, col), &mut out);
        if out.iter().any(|d| matches!(d, Den::Wrong(w) if w.starts_with("parse error"))) && body.contains("#REF!") {
            return vec![Den::PartialRef];
        }
        out
    }
}

/// Parses a formula text of `model` located at (sheet,row,col).
pub fn denotation(model: &Model, text: &str, sheet: u32, row: i32, col: i32) -> Den {
    Reader::new(model).den(text, sheet, row, col)
}

// ---------------------------------------------------------------------------------------------------------------
// the engine under both APIs
// ---------------------------------------------------------------------------------------------------------------

pub enum Eng {
    M(Model<'static>),
    U(UserModel<'static>),
}

impl Eng {
    pub fn load(bytes: &[u8], api: Api) -> Eng {
        match api {
            Api::Model => Eng::M(Model::from_bytes(bytes, "en").expect("from_bytes")),
            Api::User => Eng::U(UserModel::from_bytes(bytes, "en").expect("from_bytes")),
        }
    }
    pub fn model(&self) -> &Model<'_> {
        match self {
            Eng::M(m) => m,
            Eng::U(u) => u.get_model(),
        }
    }
    /// applies `op` along `axis` on `sheet`; the Model API is followed by `evaluate` (UserModel evaluates itself)
    pub fn apply(&mut self, sheet: u32, axis: Axis, op: &SOp) -> Result<(), String> {
        match self {
            Eng::M(m) => {
                let r = match (axis, *op) {
                    (Axis::Rows, SOp::Insert { p, k }) => m.insert_rows(sheet, p, k),
                    (Axis::Cols, SOp::Insert { p, k }) => m.insert_columns(sheet, p, k),
                    (Axis::Rows, SOp::Delete { p, k }) => m.delete_rows(sheet, p, k),
                    (Axis::Cols, SOp::Delete { p, k }) => m.delete_columns(sheet, p, k),
                    (Axis::Rows, SOp::Move { s, n, d }) => m.move_rows_action(sheet, s, n, d),
                    (Axis::Cols, SOp::Move { s, n, d }) => m.move_columns_action(sheet, s, n, d),
                };
                if r.is_ok() {
                    m.evaluate();
                }
                r
            }
            Eng::U(u) => match (axis, *op) {
                (Axis::Rows, SOp::Insert { p, k }) => u.insert_rows(sheet, p, k),
                (Axis::Cols, SOp::Insert { p, k }) => u.insert_columns(sheet, p, k),
                (Axis::Rows, SOp::Delete { p, k }) => u.delete_rows(sheet, p, k),
                (Axis::Cols, SOp::Delete { p, k }) => u.delete_columns(sheet, p, k),
                (Axis::Rows, SOp::Move { s, n, d }) => u.move_rows_action(sheet, s, n, d),
                (Axis::Cols, SOp::Move { s, n, d }) => u.move_columns_action(sheet, s, n, d),
            },
        }
    }
}

// ---------------------------------------------------------------------------------------------------------------
// workbook builder
// ---------------------------------------------------------------------------------------------------------------

pub const CONTENTS: [&str; 12] = [
    "number",
    "number17",
    "quote-prefixed",
    "text",
    "boolean",
    "date",
    "percent",
    "error",
    "auto-link",
    "explicit-link",
    "styled",
    "formula",
];

pub const STRIP: i32 = 6;

#[derive(Clone, Debug, Serialize, Deserialize, PartialEq)]
pub struct Spec {
    pub axis: Axis,
    /// 0: descriptors only; 1: dynamic array in the band, CSE array outside, a hidden position;
    /// 2: CSE array (with a reference) in the band, dynamic array outside
    pub variant: u8,
    /// (position t in 1..=6, index into CONTENTS)
    pub interesting: Vec<(i32, usize)>,
    /// observers of the last rows/columns (references an insertion can push off the grid)
    pub edge: bool,
}

#[derive(Clone, Debug)]
pub struct DataCell {
    pub t: i32,
    pub lane: i32,
    pub what: String,
    /// array members move with their anchor: (anchor t, anchor lane)
    pub anchor: Option<(i32, i32)>,
    /// content is a formula (its text is judged through the observer machinery, not literally)
    pub formula: bool,
}

#[derive(Clone, Debug)]
pub struct Target {
    pub sheet: u32,
    /// along the axis
    pub t1: i32,
    pub t2: i32,
    /// across
    pub l1: i32,
    pub l2: i32,
    pub single: bool,
}

#[derive(Clone, Debug)]
pub struct Observer {
    pub sheet: u32,
    pub row: i32,
    pub col: i32,
    /// form of the reference (rel, abs, abs-t, abs-lane, range, full-lane, full-t, spill, ...)
    pub form: &'static str,
    pub target: Target,
    /// reads a defined name instead of holding the reference itself
    pub via_name: Option<String>,
    pub text: String,
}

#[derive(Clone, Debug)]
pub struct NameObs {
    pub name: String,
    pub target: Target,
}

pub struct Built {
    pub spec: Spec,
    pub bytes: Vec<u8>,
    pub data: Vec<DataCell>,
    pub observers: Vec<Observer>,
    pub names: Vec<NameObs>,
}

pub fn bold_fill() -> Style {
    let mut st = Style::default();
    st.font.b = true;
    st.fill.color = ironcalc_base::types::Color::Rgb("#FFCC00".to_string());
    st
}

fn italic_fmt() -> Style {
    let mut st = Style::default();
    st.font.i = true;
    st.num_fmt = "0.00".to_string();
    st
}

fn content_text(axis: Axis, t: i32, idx: usize) -> String {
    match CONTENTS[idx] {
        "number" => "7.5".into(),
        "number17" => "12345678901234567".into(),
        "quote-prefixed" => "'123".into(),
        "text" => "abc".into(),
        "boolean" => "TRUE".into(),
        "date" => "2020-01-02".into(),
        "percent" => "10%".into(),
        "error" => "#N/A".into(),
        "auto-link" => "http://a.b".into(),
        "explicit-link" | "styled" => format!("{}", 200 + t),
        "formula" => format!("={}+1", rf(axis, t % STRIP + 1, 1, false, false)),
        _ => unreachable!(),
    }
}

struct Layout {
    next: i32,
}
impl Layout {
    /// same-sheet observers: t = 1 + k % 8, lane = 5 + k / 8
    fn place(&mut self) -> (i32, i32) {
        let k = self.next;
        self.next += 1;
        (1 + k % 8, 5 + k / 8)
    }
}

/// Builds the workbook of `spec`. Sheet1 (index 0) is the edited sheet, Sheet2 holds cross-sheet observers.
pub fn build(spec: &Spec) -> Built {
    let axis = spec.axis;
    let mut m = Model::new_empty("structural", "en", "UTC", "en").expect("new_empty");
    m.new_sheet();
    let mut data: Vec<DataCell> = vec![];
    let mut observers: Vec<Observer> = vec![];
    let mut names: Vec<NameObs> = vec![];
    let input = |m: &mut Model, sheet: u32, row: i32, col: i32, text: &str| {
        m.set_user_input(sheet, row, col, text.to_string())
            .unwrap_or_else(|e| panic!("builder input {} at {},{},{}: {}", text, sheet, row, col, e));
    };
    // ---- data strip, lane 1
    let mut explicit_links: Vec<(i32, i32)> = vec![];
    for t in 1..=STRIP {
        let (r, c) = axis.rc(t, 1);
        match spec.interesting.iter().find(|(p, _)| *p == t) {
            Some((_, idx)) => {
                let text = content_text(axis, t, *idx);
                input(&mut m, 0, r, c, &text);
                let what = CONTENTS[*idx];
                if what == "styled" {
                    m.set_cell_style(0, r, c, &italic_fmt()).expect("style");
                }
                if what == "explicit-link" {
                    explicit_links.push((r, c));
                }
                data.push(DataCell {
                    t,
                    lane: 1,
                    what: what.to_string(),
                    anchor: None,
                    formula: what == "formula",
                });
                if what == "formula" {
                    observers.push(Observer {
                        sheet: 0,
                        row: r,
                        col: c,
                        form: "rel-in-strip",
                        target: Target {
                            sheet: 0,
                            t1: t % STRIP + 1,
                            t2: t % STRIP + 1,
                            l1: 1,
                            l2: 1,
                            single: true,
                        },
                        via_name: None,
                        text,
                    });
                }
            }
            None => {
                input(&mut m, 0, r, c, &format!("{}", 100 + t));
                data.push(DataCell {
                    t,
                    lane: 1,
                    what: "tag".into(),
                    anchor: None,
                    formula: false,
                });
            }
        }
    }
    // ---- arrays, lane 2
    let seq = |n: i32| match axis {
        Axis::Rows => format!("=SEQUENCE({})", n),
        Axis::Cols => format!("=SEQUENCE(1,{})", n),
    };
    let lit = |a: i32, b: i32| match axis {
        Axis::Rows => format!("{{{};{}}}", a, b),
        Axis::Cols => format!("{{{},{}}}", a, b),
    };
    let (aw, ah) = match axis {
        Axis::Rows => (1, 2),
        Axis::Cols => (2, 1),
    };
    let mut arrays: Vec<(i32, &'static str)> = vec![]; // (anchor t, kind)
    if spec.variant == 1 {
        let (r, c) = axis.rc(2, 2);
        input(&mut m, 0, r, c, &seq(2));
        arrays.push((2, "dynamic"));
        let (r, c) = axis.rc(9, 2);
        m.set_user_array_formula(0, r, c, aw, ah, &format!("={}", lit(10, 20)))
            .expect("cse");
        arrays.push((9, "cse"));
    } else if spec.variant == 2 {
        let (r, c) = axis.rc(2, 2);
        let rng = format!("{}:{}", rf(axis, 5, 1, true, true), rf(axis, 6, 1, true, true));
        let text = format!("=SUM({})+{}", rng, lit(1, 2));
        m.set_user_array_formula(0, r, c, aw, ah, &text).expect("cse");
        arrays.push((2, "cse-ref"));
        observers.push(Observer {
            sheet: 0,
            row: r,
            col: c,
            form: "abs-range-in-cse",
            target: Target {
                sheet: 0,
                t1: 5,
                t2: 6,
                l1: 1,
                l2: 1,
                single: false,
            },
            via_name: None,
            text,
        });
        let (r, c) = axis.rc(9, 2);
        input(&mut m, 0, r, c, &seq(2));
        arrays.push((9, "dynamic"));
    }
    for (t, kind) in &arrays {
        data.push(DataCell {
            t: *t,
            lane: 2,
            what: format!("{}-anchor", kind),
            anchor: Some((*t, 2)),
            formula: true,
        });
        data.push(DataCell {
            t: *t + 1,
            lane: 2,
            what: format!("{}-child", kind),
            anchor: Some((*t, 2)),
            formula: true,
        });
    }
    // ---- descriptors
    match axis {
        Axis::Rows => {
            m.set_row_height(0, 2, 30.0).expect("height");
            m.set_row_height(0, 3, 33.0).expect("height");
            m.set_row_style(0, 5, &bold_fill()).expect("row style");
            m.set_column_width(0, 1, 120.0).expect("width");
            if spec.variant == 1 {
                m.set_row_hidden(0, 4, true).expect("hidden");
            }
            if spec.variant == 2 {
                // a hidden line of the OTHER axis with an index inside the landing zones: must not matter
                m.set_column_hidden(0, 2, true).expect("hidden");
            }
        }
        Axis::Cols => {
            // a multi-column descriptor 2..3 (as imported files have), written through the public field
            m.set_column_style(0, 2, &italic_fmt()).expect("col style");
            for cdesc in m.workbook.worksheets[0].cols.iter_mut() {
                if cdesc.min == 2 && cdesc.max == 2 {
                    cdesc.max = 3;
                    cdesc.width = 14.0;
                    cdesc.custom_width = true;
                }
            }
            m.set_column_style(0, 5, &bold_fill()).expect("col style");
            m.set_row_height(0, 1, 31.0).expect("height");
            if spec.variant == 1 {
                m.set_column_hidden(0, 4, true).expect("hidden");
            }
            if spec.variant == 2 {
                m.set_row_hidden(0, 2, true).expect("hidden");
            }
        }
    }
    // ---- same-sheet observers (lanes 5..), all reading lane 1
    let mut lay = Layout { next: 0 };
    let same = |observers: &mut Vec<Observer>, m: &mut Model, tl: (i32, i32), form: &'static str, target: Target, text: String| {
        let (r, c) = axis.rc(tl.0, tl.1);
        input(m, 0, r, c, &text);
        observers.push(Observer {
            sheet: 0,
            row: r,
            col: c,
            form,
            target,
            via_name: None,
            text,
        });
    };
    let single = |t: i32, lane: i32| Target {
        sheet: 0,
        t1: t,
        t2: t,
        l1: lane,
        l2: lane,
        single: true,
    };
    let range = |i: i32, j: i32, lane: i32| Target {
        sheet: 0,
        t1: i,
        t2: j,
        l1: lane,
        l2: lane,
        single: false,
    };
    for t in 1..=STRIP {
        for (form, at, al) in [("rel", false, false), ("abs", true, true), ("abs-t", true, false), ("abs-lane", false, true)] {
            let p = lay.place();
            same(&mut observers, &mut m, p, form, single(t, 1), format!("={}", rf(axis, t, 1, at, al)));
        }
    }
    for i in 1..=STRIP {
        for j in i..=STRIP {
            let p = lay.place();
            same(
                &mut observers,
                &mut m,
                p,
                "range",
                range(i, j, 1),
                format!("=SUM({}:{})", rf(axis, i, 1, false, false), rf(axis, j, 1, false, false)),
            );
        }
    }
    {
        let p = lay.place();
        same(
            &mut observers,
            &mut m,
            p,
            "full-lane",
            range(1, axis.last(), 1),
            format!("=SUM({})", full_lane(axis, 1)),
        );
    }
    // everything at position t: placed at t = 8 + t so that it never reads itself
    for t in 1..=STRIP {
        same(
            &mut observers,
            &mut m,
            (8 + t, 5),
            "full-t",
            Target {
                sheet: 0,
                t1: t,
                t2: t,
                l1: 1,
                l2: axis.last_lane(),
                single: false,
            },
            format!("=SUM({})", full_t(axis, t)),
        );
    }
    let last = axis.last();
    // references near the last row/column
    same(
        &mut observers,
        &mut m,
        (15, 5),
        "rel",
        single(last - 6, 1),
        format!("={}", rf(axis, last - 6, 1, false, false)),
    );
    if spec.edge {
        same(
            &mut observers,
            &mut m,
            (15, 6),
            "rel",
            single(last, 1),
            format!("={}", rf(axis, last, 1, false, false)),
        );
        same(
            &mut observers,
            &mut m,
            (15, 7),
            "abs",
            single(last - 1, 1),
            format!("={}", rf(axis, last - 1, 1, true, true)),
        );
        same(
            &mut observers,
            &mut m,
            (15, 8),
            "range",
            range(last - 1, last, 1),
            format!("=SUM({}:{})", rf(axis, last - 1, 1, false, false), rf(axis, last, 1, false, false)),
        );
    }
    // ---- Sheet2: cross-sheet observers in a 10-wide grid, a local strip in column L with local observers
    let mut k2 = 0;
    let mut other = |observers: &mut Vec<Observer>, m: &mut Model, form: &'static str, target: Target, via: Option<String>, text: String| {
        let (r, c) = (1 + k2 / 10, 1 + k2 % 10);
        k2 += 1;
        input(m, 1, r, c, &text);
        observers.push(Observer {
            sheet: 1,
            row: r,
            col: c,
            form,
            target,
            via_name: via,
            text,
        });
    };
    for t in 1..=STRIP {
        other(&mut observers, &mut m, "sheet-rel", single(t, 1), None, format!("=Sheet1!{}", rf(axis, t, 1, false, false)));
        other(&mut observers, &mut m, "sheet-abs", single(t, 1), None, format!("=Sheet1!{}", rf(axis, t, 1, true, true)));
    }
    for i in 1..=STRIP {
        for j in i..=STRIP {
            other(
                &mut observers,
                &mut m,
                "sheet-range",
                range(i, j, 1),
                None,
                format!("=SUM(Sheet1!{}:{})", rf(axis, i, 1, false, false), rf(axis, j, 1, true, true)),
            );
        }
    }
    other(
        &mut observers,
        &mut m,
        "sheet-full-lane",
        range(1, last, 1),
        None,
        format!("=SUM(Sheet1!{})", full_lane(axis, 1)),
    );
    for t in 1..=STRIP {
        other(
            &mut observers,
            &mut m,
            "sheet-full-t",
            Target {
                sheet: 0,
                t1: t,
                t2: t,
                l1: 1,
                l2: axis.last_lane(),
                single: false,
            },
            None,
            format!("=SUM(Sheet1!{})", full_t(axis, t)),
        );
    }
    for (t, kind) in &arrays {
        other(&mut observers, &mut m, "sheet-array-anchor", single(*t, 2), None, format!("=Sheet1!{}", rf(axis, *t, 2, false, false)));
        if kind.starts_with("cse") {
            other(&mut observers, &mut m, "sheet-array-child", single(*t + 1, 2), None, format!("=Sheet1!{}", rf(axis, *t + 1, 2, false, false)));
            other(
                &mut observers,
                &mut m,
                "sheet-array-range",
                range(*t, *t + 1, 2),
                None,
                format!("=SUM(Sheet1!{}:{})", rf(axis, *t, 2, false, false), rf(axis, *t + 1, 2, false, false)),
            );
        } else {
            other(&mut observers, &mut m, "sheet-spill", single(*t, 2), None, format!("=SUM(Sheet1!{}#)", rf(axis, *t, 2, false, false)));
        }
    }
    other(&mut observers, &mut m, "sheet-rel", single(last - 6, 1), None, format!("=Sheet1!{}", rf(axis, last - 6, 1, false, false)));
    if spec.edge {
        for d in 0..3 {
            other(&mut observers, &mut m, "sheet-rel", single(last - d, 1), None, format!("=Sheet1!{}", rf(axis, last - d, 1, false, false)));
        }
        other(&mut observers, &mut m, "sheet-abs", single(last, 1), None, format!("=Sheet1!{}", rf(axis, last, 1, true, true)));
        other(
            &mut observers,
            &mut m,
            "sheet-range",
            range(last - 1, last, 1),
            None,
            format!("=SUM(Sheet1!{}:{})", rf(axis, last - 1, 1, false, false), rf(axis, last, 1, false, false)),
        );
        other(
            &mut observers,
            &mut m,
            "sheet-range",
            range(last - 6, last, 1),
            None,
            format!("=SUM(Sheet1!{}:{})", rf(axis, last - 6, 1, false, false), rf(axis, last, 1, false, false)),
        );
    }
    // defined names and their readers
    for t in 1..=STRIP {
        let name = format!("nm_{}", t);
        m.new_defined_name(&name, None, &format!("Sheet1!{}", rf(axis, t, 1, true, true)))
            .expect("defined name");
        names.push(NameObs {
            name: name.clone(),
            target: single(t, 1),
        });
        other(&mut observers, &mut m, "name-reader", single(t, 1), Some(name.clone()), format!("={}", name));
    }
    for (i, j) in [(1, 3), (2, 5), (4, 6)] {
        let name = format!("rg_{}_{}", i, j);
        m.new_defined_name(
            &name,
            None,
            &format!("Sheet1!{}:{}", rf(axis, i, 1, true, true), rf(axis, j, 1, true, true)),
        )
        .expect("defined name");
        names.push(NameObs {
            name: name.clone(),
            target: range(i, j, 1),
        });
        other(&mut observers, &mut m, "name-reader", range(i, j, 1), Some(name.clone()), format!("=SUM({})", name));
    }
    // local strip and local observers on Sheet2 (bystanders: an edit of Sheet1 must not touch them)
    for r in 1..=3 {
        input(&mut m, 1, r, 12, &format!("{}", 900 + r));
    }
    let local = |r1: i32, r2: i32, single: bool| Target {
        sheet: 1,
        t1: r1,
        t2: r2,
        l1: 12,
        l2: 12,
        single,
    };
    // the same coordinates as the edited strip of Sheet1 (rows 1..7 of column A, columns A..G of row 1), but on Sheet2:
    // an edit of Sheet1 at these indices must leave references to them alone
    // (whatever Sheet2 holds there: only the cells denoted matter)
    let at = |r1: i32, r2: i32, c1: i32, c2: i32, single: bool| Target { sheet: 1, t1: r1, t2: r2, l1: c1, l2: c2, single };
    for (r, c, form, tgt, text) in [
        (6, 13, "local-strip-rel", at(3, 3, 1, 1, true), "=A3".to_string()),
        (7, 13, "local-strip-abs", at(1, 1, 3, 3, true), "=$C$1".to_string()),
        (8, 13, "local-strip-range", at(2, 5, 1, 1, false), "=SUM(A2:A5)".to_string()),
        (9, 13, "local-strip-range", at(1, 1, 2, 5, false), "=SUM(B1:E1)".to_string()),
        (10, 13, "local-strip-mixed", at(4, 4, 1, 1, true), "=$A4+A$4".to_string()),
    ] {
        input(&mut m, 1, r, c, &text);
        observers.push(Observer { sheet: 1, row: r, col: c, form, target: tgt, via_name: None, text });
    }
    for (r, c, form, tgt, text) in [
        (1, 13, "local-rel", local(2, 2, true), "=L2".to_string()),
        (2, 13, "local-abs", local(3, 3, true), "=$L$3".to_string()),
        (3, 13, "local-range", local(1, 3, false), "=SUM(L1:L3)".to_string()),
        (4, 13, "local-full", local(1, LAST_ROW, false), "=SUM(L:L)".to_string()),
    ] {
        input(&mut m, 1, r, c, &text);
        observers.push(Observer {
            sheet: 1,
            row: r,
            col: c,
            form,
            target: tgt,
            via_name: None,
            text,
        });
    }
    m.evaluate();
    let mut um = UserModel::from_model(m);
    for (r, c) in explicit_links {
        um.set_cell_link(
            0,
            r,
            c,
            Link::External {
                target: "https://example.com/explicit".into(),
                tooltip: None,
            },
            None,
        )
        .expect("set_cell_link");
    }
    let bytes = um.to_bytes();
    Built {
        spec: spec.clone(),
        bytes,
        data,
        observers,
        names,
    }
}

// ---------------------------------------------------------------------------------------------------------------
// snapshots
// ---------------------------------------------------------------------------------------------------------------

#[derive(Clone, PartialEq, Debug)]
pub struct Snap {
    pub content: String,
    pub kind: String,
    pub value: String,
    pub style: String,
    pub link: String,
    pub arr: String,
}

pub fn cell_kind(cell: Option<&Cell>) -> &'static str {
    match cell {
        None => "none",
        Some(Cell::EmptyCell { .. }) => "empty",
        Some(Cell::BooleanCell { .. }) => "bool",
        Some(Cell::NumberCell { .. }) => "number",
        Some(Cell::ErrorCell { .. }) => "error",
        Some(Cell::SharedString { .. }) => "string",
        Some(Cell::CellFormula { .. }) => "formula",
        Some(Cell::ArrayFormula {
            kind: ArrayKind::Cse, ..
        }) => "cse-array",
        Some(Cell::ArrayFormula { .. }) => "dynamic-array",
        Some(Cell::SpillCell { .. }) => "spill",
    }
}

pub fn value_text(v: &CellValue) -> String {
    match v {
        CellValue::None => "None".into(),
        CellValue::String(s) => format!("S:{}", s),
        CellValue::Number(n) => format!("N:{:?}/{:016x}", n, n.to_bits()),
        CellValue::Boolean(b) => format!("B:{}", b),
    }
}

pub fn snap(model: &Model, sheet: u32, row: i32, col: i32) -> Snap {
    let ws = &model.workbook.worksheets[sheet as usize];
    let cell = ws.cell(row, col);
    let arr = match cell {
        Some(Cell::ArrayFormula { r, kind, .. }) => format!("{:?}{:?}", kind, r),
        Some(Cell::SpillCell { a, .. }) => format!("child(+{},+{})", row - a.0, col - a.1),
        _ => String::new(),
    };
    Snap {
        content: model
            .get_localized_cell_content(sheet, row, col)
            .unwrap_or_else(|e| format!("ERR {}", e)),
        kind: cell_kind(cell).to_string(),
        value: model
            .get_cell_value_by_index(sheet, row, col)
            .map(|v| value_text(&v))
            .unwrap_or_else(|e| format!("ERR {}", e)),
        style: model
            .get_style_for_cell(sheet, row, col)
            .map(|s| obs::style_str(&s))
            .unwrap_or_else(|e| format!("ERR {}", e)),
        link: format!("{:?}", model.get_cell_link(sheet, row, col)),
        arr,
    }
}

/// (size, hidden, style) of position t along the axis on sheet 0
pub fn attr(model: &Model, axis: Axis, sheet: u32, t: i32) -> String {
    let norm = |s: Result<Option<Style>, String>| match s {
        Ok(None) => "None".to_string(),
        Ok(Some(x)) => {
            let t = obs::style_str(&x);
            if t == obs::default_style_str() {
                "None".to_string()
            } else {
                t
            }
        }
        Err(e) => format!("ERR {}", e),
    };
    match axis {
        Axis::Rows => format!(
            "size={:?} hidden={:?} style={}",
            model.get_row_height(sheet, t),
            model.is_row_hidden(sheet, t),
            norm(model.get_row_style(sheet, t))
        ),
        Axis::Cols => {
            let ws = &model.workbook.worksheets[sheet as usize];
            format!(
                "size={:?} hidden={:?} style={}",
                ws.get_actual_column_width(t),
                model.is_column_hidden(sheet, t),
                norm(model.get_column_style(sheet, t))
            )
        }
    }
}

pub const ATTR_SPAN: i32 = 14;

pub struct Pre {
    pub data: Vec<Snap>,
    pub obs_values: Vec<String>,
    pub obs_den: Vec<Den>,
    pub name_text: Vec<String>,
    /// attributes of t = 1..=ATTR_SPAN
    pub attrs: Vec<String>,
    /// resolved style of the empty probe cell (t, lane 3) for t = 1..=ATTR_SPAN
    pub probe: Vec<String>,
    /// attributes across the axis (lanes 1..=3): must never change
    pub cross: Vec<String>,
}

pub fn name_formula(model: &Model, name: &str) -> String {
    model
        .get_defined_name_list()
        .into_iter()
        .find(|(n, s, _)| n == name && s.is_none())
        .map(|(_, _, f)| f)
        .unwrap_or_else(|| "<missing>".into())
}

pub fn pre_snapshot(model: &Model, b: &Built) -> Pre {
    let axis = b.spec.axis;
    let other = match axis {
        Axis::Rows => Axis::Cols,
        Axis::Cols => Axis::Rows,
    };
    Pre {
        data: b
            .data
            .iter()
            .map(|d| {
                let (r, c) = axis.rc(d.t, d.lane);
                snap(model, 0, r, c)
            })
            .collect(),
        obs_values: b
            .observers
            .iter()
            .map(|o| {
                model
                    .get_cell_value_by_index(o.sheet, o.row, o.col)
                    .map(|v| value_text(&v))
                    .unwrap_or_else(|e| format!("ERR {}", e))
            })
            .collect(),
        obs_den: b
            .observers
            .iter()
            .map(|o| {
                let f = model.get_cell_formula(o.sheet, o.row, o.col).ok().flatten().unwrap_or_default();
                denotation(model, &f, o.sheet, o.row, o.col)
            })
            .collect(),
        name_text: b.names.iter().map(|n| name_formula(model, &n.name)).collect(),
        attrs: (1..=ATTR_SPAN).map(|t| attr(model, axis, 0, t)).collect(),
        probe: (1..=ATTR_SPAN)
            .map(|t| {
                let (r, c) = axis.rc(t, 3);
                model
                    .get_style_for_cell(0, r, c)
                    .map(|s| obs::style_str(&s))
                    .unwrap_or_else(|e| format!("ERR {}", e))
            })
            .collect(),
        cross: (1..=3).map(|l| attr(model, other, 0, l)).collect(),
    }
}

// ---------------------------------------------------------------------------------------------------------------
// the oracle
// ---------------------------------------------------------------------------------------------------------------

#[derive(Default)]
pub struct Judged {
    pub ds: Vec<Disagreement>,
    pub data_checked: u64,
    pub refs_checked: u64,
    pub values_checked: u64,
    pub unspecified: u64,
}

/// expected denotation of a target after `op`
#[derive(Clone, PartialEq, Debug)]
pub enum Expect {
    Is(Den),
    /// must contain #REF!
    Gone,
    /// #REF! (plain or at one end) or exactly this
    GoneOr(Den),
    Unjudged,
}

pub fn target_den(axis: Axis, tg: &Target) -> Den {
    if tg.single {
        let (r, c) = axis.rc(tg.t1, tg.l1);
        Den::Cell {
            sheet: tg.sheet,
            row: r,
            col: c,
        }
    } else {
        let (r1, c1) = axis.rc(tg.t1, tg.l1);
        let (r2, c2) = axis.rc(tg.t2, tg.l2);
        Den::Range {
            sheet: tg.sheet,
            r1: r1.min(r2),
            c1: c1.min(c2),
            r2: r1.max(r2),
            c2: c1.max(c2),
        }
    }
}

pub fn expect(axis: Axis, op: &SOp, tg: &Target) -> Expect {
    if tg.sheet != 0 {
        // another sheet (or the Sheet2-local observers whose target is given in plain rows of column L)
        return Expect::Unjudged;
    }
    let last = axis.last();
    if tg.single {
        match map_t(op, tg.t1, last) {
            Moved::At(t) => Expect::Is(target_den(
                axis,
                &Target {
                    t1: t,
                    t2: t,
                    ..tg.clone()
                },
            )),
            _ => Expect::Gone,
        }
    } else {
        let mk = |a: i32, b: i32| {
            target_den(
                axis,
                &Target {
                    t1: a,
                    t2: b,
                    ..tg.clone()
                },
            )
        };
        match map_range(op, tg.t1, tg.t2, last) {
            RangeFate::Exact(a, b) => Expect::Is(mk(a, b)),
            RangeFate::AllGone => Expect::Gone,
            RangeFate::Partial(a, b) => Expect::GoneOr(mk(a, b)),
            RangeFate::Unjudged => Expect::Unjudged,
        }
    }
}

fn den_text(d: &Den) -> String {
    match d {
        Den::Cell { sheet, row, col } => format!("s{}!{}", sheet, a1(*row, *col, false, false)),
        Den::Range { sheet, r1, c1, r2, c2 } => format!(
            "s{}!{}:{}",
            sheet,
            a1(*r1, *c1, false, false),
            a1(*r2, *c2, false, false)
        ),
        other => format!("{:?}", other),
    }
}

fn got_class(got: &Den, before: &Den) -> String {
    if got == before && !matches!(got, Den::RefErr | Den::PartialRef | Den::NoRef) {
        "unchanged".to_string()
    } else {
        got.class().to_string()
    }
}

fn exp_class(e: &Expect, before: &Den) -> &'static str {
    match e {
        Expect::Is(d) if d == before => "same",
        Expect::Is(Den::Cell { .. }) => "shifted-cell",
        Expect::Is(_) => "shifted-or-resized-range",
        Expect::Gone => "#REF!",
        Expect::GoneOr(_) => "#REF!-or-survivors",
        Expect::Unjudged => "unjudged",
    }
}

pub struct Mode {
    /// property id for messages
    pub prop: &'static str,
    /// judge row/column attributes (C15)
    pub attrs: bool,
}

/// Judges the state of `model` after `op` against `pre`. `eff` is the operation that took effect (for moves under
/// UserModel with hidden positions in the landing zone the delta is derived from the observation).
pub fn judge_after(model: &Model, b: &Built, pre: &Pre, op: &SOp, case: &Value, mode: &Mode) -> Judged {
    let axis = b.spec.axis;
    let last = axis.last();
    let mut j = Judged::default();
    let opk = op.kind();
    let ax = axis.name();
    let push = |j: &mut Judged, sig: String, detail: String| {
        j.ds.push(Disagreement {
            sig,
            case: case.clone(),
            detail,
        });
    };
    // ---- data cells
    let mut occupied: BTreeSet<(i32, i32)> = BTreeSet::new();
    // data cells whose value is not what it was (deleted, or changed): their readers are not judged on values
    let mut data_changed: Vec<bool> = vec![true; b.data.len()];
    for (i, d) in b.data.iter().enumerate() {
        let (at, al) = d.anchor.unwrap_or((d.t, d.lane));
        let new_anchor = match map_t(op, at, last) {
            Moved::At(t) => t,
            _ => continue, // deleted with its row/column
        };
        let nt = new_anchor + (d.t - at);
        let _ = al;
        if d.anchor.is_some() && d.what.starts_with("cse") {
            // a CSE array is never split by an accepted operation: member and anchor move alike
            if map_t(op, d.t, last) != Moved::At(nt) {
                push(
                    &mut j,
                    format!("{} {} accepted-operation-splits-cse-array", opk, ax),
                    format!("the operation was accepted although it separates {:?} from its anchor", d),
                );
                continue;
            }
        }
        let (r, c) = axis.rc(nt, d.lane);
        occupied.insert((r, c));
        let now = snap(model, 0, r, c);
        let was = &pre.data[i];
        let mut fields: Vec<&str> = vec![];
        if !d.formula && now.content != was.content {
            fields.push("content");
        }
        if now.kind != was.kind {
            fields.push("kind");
        }
        if !d.formula && now.value != was.value {
            fields.push("value");
        }
        data_changed[i] = now.value != was.value;
        // a spill child is derived: it is written again next to its anchor and takes the style found there
        let derived = d.what == "dynamic-child";
        if now.style != was.style && !derived {
            fields.push("style");
        }
        if now.link != was.link && !derived {
            fields.push("link");
        }
        if now.arr != was.arr {
            fields.push("array-structure");
        }
        j.data_checked += 1;
        if !fields.is_empty() {
            push(
                &mut j,
                format!("{} {} cell what={} fields={}", opk, ax, d.what, fields.join(",")),
                format!(
                    "cell {} (t={}, lane={}) expected at {} after {:?}:\n  before: {:?}\n  after:  {:?}",
                    d.what,
                    d.t,
                    d.lane,
                    a1(r, c, false, false),
                    op,
                    was,
                    now
                ),
            );
        }
    }
    // nothing else appears in the data lanes (1 and 2) within the window
    for lane in 1..=2 {
        for t in 1..=ATTR_SPAN {
            let (r, c) = axis.rc(t, lane);
            if occupied.contains(&(r, c)) {
                continue;
            }
            let now = snap(model, 0, r, c);
            if !now.content.is_empty() || now.link != "Ok(None)" || !matches!(now.kind.as_str(), "none" | "empty") {
                push(
                    &mut j,
                    format!("{} {} unexpected-cell lane={} kind={}", opk, ax, lane, now.kind),
                    format!("cell {} should be blank after {:?}: {:?}", a1(r, c, false, false), op, now),
                );
            }
        }
    }
    // ---- observers
    struct OState {
        gone: bool,
        value_changed: bool,
        pos: (u32, i32, i32),
    }
    let mut ostate: Vec<OState> = vec![];
    for (i, o) in b.observers.iter().enumerate() {
        let pos = if o.sheet == 0 {
            let (t, lane) = axis.tl(o.row, o.col);
            // observers that are array members move with their anchor (only the CSE anchor itself is an observer)
            match map_t(op, t, last) {
                Moved::At(t2) => {
                    let (r, c) = axis.rc(t2, lane);
                    Some((0u32, r, c))
                }
                _ => None,
            }
        } else {
            Some((o.sheet, o.row, o.col))
        };
        match pos {
            None => ostate.push(OState {
                gone: true,
                value_changed: true,
                pos: (0, 0, 0),
            }),
            Some(p) => {
                let v = model
                    .get_cell_value_by_index(p.0, p.1, p.2)
                    .map(|v| value_text(&v))
                    .unwrap_or_else(|e| format!("ERR {}", e));
                ostate.push(OState {
                    gone: false,
                    value_changed: v != pre.obs_values[i],
                    pos: p,
                });
            }
        }
    }
    // names first: a stale name taints its readers
    let mut reader = Reader::new(model);
    let name_list = model.get_defined_name_list();
    let mut stale_names: BTreeSet<String> = BTreeSet::new();
    for (i, n) in b.names.iter().enumerate() {
        let text = name_list
            .iter()
            .find(|(nm, sc, _)| nm == &n.name && sc.is_none())
            .map(|(_, _, f)| f.clone())
            .unwrap_or_else(|| "<missing>".into());
        let got = reader.den(&text, 0, 1, 1);
        let before = reader.den(&pre.name_text[i], 0, 1, 1);
        let e = expect(axis, op, &n.target);
        j.refs_checked += 1;
        let ok = match &e {
            Expect::Is(d) => &got == d,
            Expect::Gone => got.has_ref_error(),
            Expect::GoneOr(d) => got.has_ref_error() || &got == d,
            Expect::Unjudged => {
                j.unspecified += 1;
                true
            }
        };
        if !ok {
            stale_names.insert(n.name.clone());
            push(
                &mut j,
                format!(
                    "{} {} defined-name form={} expected={} got={}",
                    opk,
                    ax,
                    if n.target.single { "abs" } else { "range" },
                    exp_class(&e, &before),
                    got_class(&got, &before)
                ),
                format!(
                    "defined name {} was `{}`; after {:?} it is `{}` (denotes {}), expected {:?}",
                    n.name,
                    pre.name_text[i],
                    op,
                    text,
                    den_text(&got),
                    e
                ),
            );
        }
    }
    for (i, o) in b.observers.iter().enumerate() {
        let st = &ostate[i];
        if st.gone {
            continue;
        }
        let (s, r, c) = st.pos;
        let loc = if o.sheet == 0 { "same-sheet" } else { "other-sheet" };
        let before = &pre.obs_den[i];
        let e = if o.target.sheet != 0 {
            // bystander on Sheet2: nothing may change
            Expect::Is(before.clone())
        } else {
            expect(axis, op, &o.target)
        };
        let mut den_ok = true;
        if o.via_name.is_none() {
            let text = model.get_cell_formula(s, r, c).ok().flatten();
            let got = match &text {
                Some(t) => reader.den(t, s, r, c),
                None => Den::NoRef,
            };
            j.refs_checked += 1;
            den_ok = match &e {
                Expect::Is(d) => &got == d,
                Expect::Gone => got.has_ref_error(),
                Expect::GoneOr(d) => got.has_ref_error() || &got == d,
                Expect::Unjudged => {
                    j.unspecified += 1;
                    true
                }
            };
            if !den_ok {
                push(
                    &mut j,
                    if matches!(op, SOp::Insert { .. }) && matches!(e, Expect::Gone | Expect::GoneOr(_)) {
                        // one defect class whatever the form: the reference was pushed beyond the grid and is
                        // printed with an index past the last row/column instead of #REF!
                        format!("{} {} pushed-off-reference-not-#REF!", opk, ax)
                    } else {
                        format!(
                            "{} {} ref form={} loc={} expected={} got={}",
                            opk,
                            ax,
                            o.form,
                            loc,
                            exp_class(&e, before),
                            got_class(&got, before)
                        )
                    },
                    format!(
                        "observer `{}` (was at s{}!{}) is `{}` at s{}!{} after {:?}: denotes {}, expected {:?}",
                        o.text,
                        o.sheet,
                        a1(o.row, o.col, false, false),
                        text.clone().unwrap_or_else(|| "<no formula>".into()),
                        s,
                        a1(r, c, false, false),
                        op,
                        den_text(&got),
                        e
                    ),
                );
            }
        }
        // ---- value
        let judgeable = den_ok
            && matches!(e, Expect::Is(_))
            // the same-coordinate bystanders read other observers of Sheet2, whose values follow the edit: only what
            // they denote is judged
            && !o.form.starts_with("local-strip")
            && !(o.target.sheet == 0 && reads_deleted(op, o.target.t1, o.target.t2))
            && o.via_name.as_ref().map(|n| !stale_names.contains(n)).unwrap_or(true)
            && !(o.target.sheet == 0
                && b.data.iter().enumerate().any(|(k, d)| {
                    data_changed[k] && d.t >= o.target.t1 && d.t <= o.target.t2 && d.lane >= o.target.l1 && d.lane <= o.target.l2
                }))
            && {
                // inputs that are observers themselves (only whole-position ranges read other observers)
                if o.target.sheet == 0 && !o.target.single && o.target.l2 > 3 {
                    // spill children do not move with their position: they are written again next to the anchor
                    !b.data.iter().any(|d| {
                        d.what.starts_with("dynamic")
                            && match (d.anchor, map_t(op, d.t, last)) {
                                (Some((at, _)), Moved::At(nt)) => match map_t(op, at, last) {
                                    Moved::At(na) => nt - na != d.t - at,
                                    _ => true,
                                },
                                _ => true,
                            }
                    }) && !b.observers.iter().enumerate().any(|(k, o2)| {
                        o2.sheet == 0 && {
                            let (t2, l2) = axis.tl(o2.row, o2.col);
                            t2 >= o.target.t1 && t2 <= o.target.t2 && l2 >= o.target.l1 && l2 <= o.target.l2 && ostate[k].value_changed
                        }
                    })
                } else {
                    true
                }
            };
        if judgeable {
            j.values_checked += 1;
            if st.value_changed {
                let now = model
                    .get_cell_value_by_index(s, r, c)
                    .map(|v| value_text(&v))
                    .unwrap_or_else(|e| format!("ERR {}", e));
                push(
                    &mut j,
                    format!(
                        "{} {} value form={} loc={} {}",
                        opk,
                        ax,
                        o.form,
                        loc,
                        value_change_class(&pre.obs_values[i], &now)
                    ),
                    format!(
                        "observer `{}` at s{}!{} computed {} before and {} after {:?} (it reads no deleted cell and its reference is as expected)",
                        o.text,
                        s,
                        a1(r, c, false, false),
                        pre.obs_values[i],
                        now,
                        op
                    ),
                );
            }
        } else {
            j.unspecified += 1;
        }
    }
    // ---- empty probe cells keep the style their row/column gives them; attributes follow (C15 only)
    for t in 1..=ATTR_SPAN {
        if let Moved::At(nt) = map_t(op, t, last) {
            if nt > ATTR_SPAN {
                continue;
            }
            let (r, c) = axis.rc(nt, 3);
            let now = model
                .get_style_for_cell(0, r, c)
                .map(|s| obs::style_str(&s))
                .unwrap_or_else(|e| format!("ERR {}", e));
            if now != pre.probe[(t - 1) as usize] {
                push(
                    &mut j,
                    format!(
                        "{} {} empty-cell-style{}",
                        opk,
                        ax,
                        if axis == Axis::Cols && (now == pre.probe[1]) != (pre.probe[(t - 1) as usize] == pre.probe[1]) {
                            "(the style of the multi-column descriptor is involved)"
                        } else {
                            ""
                        }
                    ),
                    format!(
                        "the empty cell (t={}, lane 3) had style {} ; after {:?} at t={} it has {}",
                        t,
                        pre.probe[(t - 1) as usize],
                        op,
                        nt,
                        now
                    ),
                );
            }
            if mode.attrs {
                let now = attr(model, axis, 0, nt);
                if now != pre.attrs[(t - 1) as usize] {
                    push(
                        &mut j,
                        format!(
                            "{} {} attributes {}{}",
                            opk,
                            ax,
                            attr_diff_class(&pre.attrs[(t - 1) as usize], &now),
                            if axis == Axis::Cols && {
                                let st = |x: &str| x.split(" style=").nth(1).map(|y| y.to_string());
                                let multi = st(&pre.attrs[1]);
                                (st(&now) == multi) != (st(&pre.attrs[(t - 1) as usize]) == multi)
                            } {
                                "(the style of the multi-column descriptor is involved)"
                            } else {
                                ""
                            }
                        ),
                        format!(
                            "position t={} had {} ; after {:?} position t={} has {}",
                            t,
                            pre.attrs[(t - 1) as usize],
                            op,
                            nt,
                            now
                        ),
                    );
                }
            }
        }
    }
    let other = match axis {
        Axis::Rows => Axis::Cols,
        Axis::Cols => Axis::Rows,
    };
    for l in 1..=3 {
        let now = attr(model, other, 0, l);
        if now != pre.cross[(l - 1) as usize] {
            push(
                &mut j,
                format!("{} {} cross-axis-attributes-changed", opk, ax),
                format!("{:?} {} had {} and has {} after {:?}", other, l, pre.cross[(l - 1) as usize], now, op),
            );
        }
    }
    j
}

pub fn attr_diff_class(a: &str, b: &str) -> String {
    let fa: Vec<&str> = a.splitn(3, ' ').collect();
    let fb: Vec<&str> = b.splitn(3, ' ').collect();
    let mut out = vec![];
    for (i, n) in ["size", "hidden", "style"].iter().enumerate() {
        if fa.get(i) != fb.get(i) {
            out.push(*n);
        }
    }
    out.join(",")
}

pub fn value_change_class(a: &str, b: &str) -> String {
    let k = |s: &str| {
        if s.starts_with("N:") {
            "number".to_string()
        } else if s.starts_with("S:#") {
            format!("error{}", s[2..].split(['!', '?']).next().unwrap_or(""))
        } else if s.starts_with("S:") {
            "text".to_string()
        } else if s.starts_with("B:") {
            "boolean".to_string()
        } else {
            "none".to_string()
        }
    };
    format!("from={} to={}", k(a), k(b))
}

pub fn case_json(prop: &str, spec: &Spec, api: Api, op: &SOp) -> Value {
    json!({"prop": prop, "spec": spec, "api": api, "op": op})
}

pub fn case_parse(v: &Value) -> Option<(Spec, Api, SOp)> {
    Some((
        serde_json::from_value(v["spec"].clone()).ok()?,
        serde_json::from_value(v["api"].clone()).ok()?,
        serde_json::from_value(v["op"].clone()).ok()?,
    ))
}

/// All workbook specs of a tier: every single interesting content at every position for every variant and both
/// orientations; in the thorough tier also every pair (variant 0).
pub fn specs(thorough: bool, edge: bool) -> Vec<Spec> {
    let mut v = vec![];
    for axis in [Axis::Rows, Axis::Cols] {
        for variant in 0..3u8 {
            for t in 1..=STRIP {
                for c in 0..CONTENTS.len() {
                    v.push(Spec {
                        axis,
                        variant,
                        interesting: vec![(t, c)],
                        edge,
                    });
                }
            }
        }
        if thorough {
            for t1 in 1..=STRIP {
                for t2 in t1 + 1..=STRIP {
                    for c1 in 0..CONTENTS.len() {
                        // unordered content pairs (the same two contents in the other order add little)
                        for c2 in c1..CONTENTS.len() {
                            v.push(Spec {
                                axis,
                                variant: 0,
                                interesting: vec![(t1, c1), (t2, c2)],
                                edge,
                            });
                        }
                    }
                }
            }
        }
    }
    v
}

thread_local! {
    pub static PHASE: std::cell::RefCell<[f64; 4]> = const { std::cell::RefCell::new([0.0; 4]) };
}
fn tick(i: usize, t: std::time::Instant) {
    PHASE.with(|p| p.borrow_mut()[i] += t.elapsed().as_secs_f64());
}

pub fn run_single_op(b: &Built, pre_model: &Pre, api: Api, op: &SOp, prop: &'static str, attrs: bool) -> (Option<Judged>, u128) {
    let case = case_json(prop, &b.spec, api, op);
    let axis = b.spec.axis;
    let t0 = std::time::Instant::now();
    let mut eng = Eng::load(&b.bytes, api);
    tick(1, t0);
    let t0 = std::time::Instant::now();
    let r = crate::env::guarded(|| eng.apply(0, axis, op));
    tick(2, t0);
    match r {
        Err(p) => {
            let mut j = Judged::default();
            j.ds.push(Disagreement {
                sig: format!("panic {} {} at={}", op.kind(), axis.name(), p.split(" @ ").last().unwrap_or("")),
                case,
                detail: format!("{:?} panicked: {}", op, p),
            });
            (Some(j), 0)
        }
        Ok(Err(_)) => (None, 0),
        Ok(Ok(())) => {
            // the effective operation: UserModel adjusts a move's delta for hidden positions in the landing zone
            let mut eff = *op;
            if let (Api::User, SOp::Move { s, n, d }) = (api, *op) {
                if b.spec.variant == 1 {
                    if let Some(d2) = derive_delta(eng.model(), b, pre_model, s, n, d) {
                        eff = SOp::Move { s, n, d: d2 };
                    }
                }
            }
            let t0 = std::time::Instant::now();
            let j = judge_after(eng.model(), b, pre_model, &eff, &case, &Mode { prop, attrs });
            let dg = outcome_digest(eng.model(), b);
            tick(3, t0);
            (Some(j), dg)
        }
    }
}

/// With hidden positions in the landing zone UserModel moves further than asked; the statement does not say how far.
/// The workbooks have one hidden position, so the candidates are the delta asked for and one further; the effective
/// delta is the first candidate under which every non-formula cell of the data strip is where the permutation puts it.
fn derive_delta(model: &Model, b: &Built, pre: &Pre, s: i32, n: i32, d: i32) -> Option<i32> {
    let axis = b.spec.axis;
    let step = if d > 0 { 1 } else { -1 };
    for dd in [d, d + step] {
        if s + dd < 1 {
            continue;
        }
        let op = SOp::Move { s, n, d: dd };
        let all = b.data.iter().enumerate().filter(|(_, c)| c.lane == 1).all(|(i, c)| {
            match map_t(&op, c.t, axis.last()) {
                Moved::At(t) => {
                    let (r, col) = axis.rc(t, 1);
                    let now = model.get_localized_cell_content(0, r, col).unwrap_or_default();
                    if c.formula {
                        now.starts_with('=')
                    } else {
                        now == pre.data[i].content
                    }
                }
                _ => false,
            }
        });
        if all {
            return Some(dd);
        }
    }
    None
}

pub fn outcome_digest(model: &Model, b: &Built) -> u128 {
    let axis = b.spec.axis;
    let mut s = String::new();
    for t in 1..=ATTR_SPAN {
        for lane in 1..=2 {
            let (r, c) = axis.rc(t, lane);
            s.push_str(&model.get_localized_cell_content(0, r, c).unwrap_or_default());
            s.push('|');
        }
    }
    for o in b.observers.iter().filter(|o| o.sheet == 1) {
        s.push_str(&model.get_localized_cell_content(1, o.row, o.col).unwrap_or_default());
        s.push('|');
    }
    crate::env::digest(&s)
}

/// Summary of counters over units, written into the Run by the property modules.
#[derive(Default)]
pub struct Totals {
    pub cases: u64,
    pub ok: u64,
    pub refused: u64,
    pub data_checked: u64,
    pub refs_checked: u64,
    pub values_checked: u64,
    pub unspecified: u64,
    pub digests: BTreeSet<u128>,
    pub per_kind: BTreeMap<String, u64>,
    /// cpu seconds: build, load, apply, judge
    pub phase: [f64; 4],
}

pub struct FamilyOut {
    pub ds: Vec<Disagreement>,
    pub totals: Totals,
}

/// Runs every (workbook, api, op): one execution unit per workbook.
pub fn run_family(
    specs: &[Spec],
    ops_for: &(dyn Fn(&Spec) -> Vec<SOp> + Sync),
    prop: &'static str,
    attrs: bool,
) -> (FamilyOut, Vec<String>) {
    let res = crate::env::par_units(specs.len(), |u| {
        let spec = &specs[u];
        let t0 = std::time::Instant::now();
        let b = build(spec);
        let pre = {
            let m = Model::from_bytes(&b.bytes, "en").expect("from_bytes");
            pre_snapshot(&m, &b)
        };
        tick(0, t0);
        let mut ds = vec![];
        let mut tot = Totals::default();
        for api in [Api::Model, Api::User] {
            for op in ops_for(spec) {
                tot.cases += 1;
                let (j, dg) = run_single_op(&b, &pre, api, &op, prop, attrs);
                match j {
                    None => tot.refused += 1,
                    Some(j) => {
                        tot.ok += 1;
                        tot.data_checked += j.data_checked;
                        tot.refs_checked += j.refs_checked;
                        tot.values_checked += j.values_checked;
                        tot.unspecified += j.unspecified;
                        tot.digests.insert(dg);
                        ds.extend(j.ds);
                    }
                }
            }
        }
        tot.phase = PHASE.with(|p| *p.borrow());
        (ds, tot)
    });
    let mut out = FamilyOut {
        ds: vec![],
        totals: Totals::default(),
    };
    let mut errs = vec![];
    for r in res {
        match r {
            Ok((ds, t)) => {
                out.ds.extend(ds);
                out.totals.cases += t.cases;
                out.totals.ok += t.ok;
                out.totals.refused += t.refused;
                out.totals.data_checked += t.data_checked;
                out.totals.refs_checked += t.refs_checked;
                out.totals.values_checked += t.values_checked;
                out.totals.unspecified += t.unspecified;
                out.totals.digests.extend(t.digests);
                for i in 0..4 {
                    out.totals.phase[i] += t.phase[i];
                }
            }
            Err(e) => errs.push(e),
        }
    }
    (out, errs)
}

pub fn replay_case(case: &Value, attrs: bool) -> Vec<Disagreement> {
    let (spec, api, op) = match case_parse(case) {
        Some(x) => x,
        None => return vec![],
    };
    let prop: &'static str = match case["prop"].as_str().unwrap_or("") {
        "C12" => "C12",
        "C13" => "C13",
        "C15" => "C15",
        _ => "C1x",
    };
    let b = build(&spec);
    let pre = {
        let m = Model::from_bytes(&b.bytes, "en").expect("from_bytes");
        pre_snapshot(&m, &b)
    };
    run_single_op(&b, &pre, api, &op, prop, attrs).0.map(|j| j.ds).unwrap_or_default()
}

pub fn fill_run(run: &mut crate::report::Run, out: FamilyOut, errs: Vec<String>) {
    for e in errs {
        run.machinery_errors.push(e);
    }
    let t = &out.totals;
    run.evaluations += t.cases;
    run.traces += t.ok;
    run.transitions += t.ok;
    run.states += t.ok + 1;
    run.nontrivial += t.ok;
    run.distinct_outcomes += t.digests.len() as u64;
    run.extra.insert("operations_accepted".into(), json!(t.ok));
    run.extra.insert("operations_refused_by_engine".into(), json!(t.refused));
    run.extra.insert("data_cells_compared".into(), json!(t.data_checked));
    run.extra.insert("references_compared".into(), json!(t.refs_checked));
    run.extra.insert("values_compared".into(), json!(t.values_checked));
    run.extra.insert("comparisons_unspecified_by_statement".into(), json!(t.unspecified));
    run.extra.insert(
        "thread_seconds_build_load_apply_judge".into(),
        json!(t.phase.iter().map(|x| (x * 10.0).round() / 10.0).collect::<Vec<_>>()),
    );
    run.add_all(out.ds);
}

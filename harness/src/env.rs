//! Determinism layer and execution units.
//!
//! Every execution unit runs in a freshly spawned thread (8 MiB stack) so that, with the
//! getrandom shim LD_PRELOADed, hash-map iteration order inside the unit is a pure function
//! of (VERIF_HASH_SEED, code path). Panics are caught and reported as values.

use std::collections::HashMap;
use std::panic::{catch_unwind, AssertUnwindSafe};
use std::sync::atomic::{AtomicUsize, Ordering};
use std::sync::Mutex;
use std::time::Instant;

pub const STACK: usize = 8 << 20;

thread_local! {
    static LAST_PANIC: std::cell::RefCell<Option<String>> = const { std::cell::RefCell::new(None) };
}

/// Root of the verification tree (evidence, replays, known findings). /verif unless VERIF_ROOT is set.
pub fn root() -> String {
    std::env::var("VERIF_ROOT").unwrap_or_else(|_| "/verif".to_string())
}

pub fn hash_seed() -> i64 {
    std::env::var("VERIF_HASH_SEED")
        .ok()
        .and_then(|s| s.parse().ok())
        .unwrap_or(0)
}

pub fn verif_seed() -> i64 {
    std::env::var("VERIF_SEED")
        .ok()
        .and_then(|s| s.parse().ok())
        .unwrap_or_else(hash_seed)
}

pub fn workers() -> usize {
    std::env::var("VERIF_WORKERS")
        .ok()
        .and_then(|s| s.parse().ok())
        .unwrap_or_else(|| {
            std::thread::available_parallelism()
                .map(|n| n.get())
                .unwrap_or(8)
                .min(16)
        })
}

fn probe_order() -> Vec<i32> {
    let mut m: HashMap<i32, i32> = HashMap::new();
    for i in 0..64 {
        m.insert(i, i);
    }
    m.keys().copied().collect()
}

/// Installs the quiet panic hook, forces lazily built globals, checks the shim is active.
pub fn init() {
    // glibc hands freed pages back after every short-lived unit thread and faults them in again (sys >> user);
    // keep arenas and the heap top around instead (measured by the C24/C25 work: 20x less CPU under load)
    unsafe {
        libc::mallopt(libc::M_ARENA_MAX, workers() as i32 + 2);
        libc::mallopt(libc::M_TRIM_THRESHOLD, 1 << 30);
        libc::mallopt(libc::M_TOP_PAD, 64 << 20);
        libc::mallopt(libc::M_MMAP_THRESHOLD, 32 << 20);
    }
    std::panic::set_hook(Box::new(|info| {
        let loc = info
            .location()
            .map(|l| format!("{}:{}", l.file(), l.line()))
            .unwrap_or_default();
        let msg = if let Some(s) = info.payload().downcast_ref::<&str>() {
            s.to_string()
        } else if let Some(s) = info.payload().downcast_ref::<String>() {
            s.clone()
        } else {
            "<non-string panic>".to_string()
        };
        LAST_PANIC.with(|p| *p.borrow_mut() = Some(format!("{} @ {}", msg, loc)));
    }));
    // lazily built global tables consume hasher keys in whichever thread touches them first
    let _ = ironcalc_base::get_supported_locales();
    let _ = ironcalc_base::language::get_language("en");
    let _ = ironcalc_base::locale::get_locale("en");
    let _ = ironcalc_base::Model::new_empty("warm", "en", "UTC", "en");
    let _ = ironcalc_base::get_all_timezones();
    if std::env::var("VERIF_ALLOW_NOSHIM").is_err() {
        let a = std::thread::spawn(probe_order).join().unwrap();
        let b = std::thread::spawn(probe_order).join().unwrap();
        if a != b {
            eprintln!("MACHINERY: hash order differs between two fresh threads: getrandom shim not active (LD_PRELOAD=/verif/shim/detrand.so missing?)");
            std::process::exit(4);
        }
    }
}

pub fn take_panic() -> Option<String> {
    LAST_PANIC.with(|p| p.borrow_mut().take())
}

/// Runs `f` catching panics; Err carries "message @ file:line".
pub fn guarded<R>(f: impl FnOnce() -> R) -> Result<R, String> {
    match catch_unwind(AssertUnwindSafe(f)) {
        Ok(r) => Ok(r),
        Err(_) => Err(take_panic().unwrap_or_else(|| "panic".to_string())),
    }
}

/// Runs one closure in a fresh thread (unit semantics) and returns its result or the panic text.
pub fn fresh<R: Send>(f: impl FnOnce() -> R + Send) -> Result<R, String> {
    std::thread::scope(|s| {
        let h = std::thread::Builder::new()
            .stack_size(STACK)
            .spawn_scoped(s, move || guarded(f))
            .expect("spawn");
        match h.join() {
            Ok(r) => r,
            Err(_) => Err("unit thread died".to_string()),
        }
    })
}

/// Runs units 0..n, each in a fresh thread, over `workers()` parallel lanes. Results in unit order.
pub fn par_units<R: Send>(n: usize, f: impl Fn(usize) -> R + Sync) -> Vec<Result<R, String>> {
    let next = AtomicUsize::new(0);
    let out: Mutex<Vec<Option<Result<R, String>>>> = Mutex::new((0..n).map(|_| None).collect());
    let w = workers().min(n.max(1));
    std::thread::scope(|s| {
        for _ in 0..w {
            s.spawn(|| loop {
                let i = next.fetch_add(1, Ordering::Relaxed);
                if i >= n {
                    break;
                }
                let r = fresh(|| f(i));
                out.lock().unwrap()[i] = Some(r);
            });
        }
    });
    out.into_inner()
        .unwrap()
        .into_iter()
        .map(|o| o.unwrap_or_else(|| Err("unit not run".into())))
        .collect()
}

pub struct Deadline {
    start: Instant,
    limit_s: f64,
}
impl Deadline {
    pub fn new(limit_s: f64) -> Self {
        Deadline {
            start: Instant::now(),
            limit_s,
        }
    }
    pub fn elapsed(&self) -> f64 {
        self.start.elapsed().as_secs_f64()
    }
    pub fn expired(&self) -> bool {
        self.elapsed() > self.limit_s
    }
}

/// 128-bit FNV-style digest of a string (stable across runs; not `DefaultHasher`).
pub fn digest(s: &str) -> u128 {
    let mut h: u128 = 0x6c62272e07bb014262b821756295c58d;
    for b in s.as_bytes() {
        h ^= *b as u128;
        h = h.wrapping_mul(0x0000000001000000000000000000013b);
    }
    h
}

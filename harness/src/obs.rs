//! The observation function: a flat, sorted map `field path -> value text`, written only against
//! public getters of `Model` / `UserModel`. Comparison of two observations yields the list of
//! differing field paths, from which violation signatures are built.

use ironcalc_base::types::{Cell, Style};
use ironcalc_base::{Model, UserModel};
use std::collections::{BTreeMap, BTreeSet, HashMap};

pub type Obs = BTreeMap<String, String>;

#[derive(Clone, Copy)]
pub struct ObsOpts {
    /// base window: rows 1..=rows, columns 1..=cols are always observed
    pub rows: i32,
    pub cols: i32,
    /// include the view (selected sheet / cell / range)
    pub view: bool,
    /// include computed values / formatted text
    pub values: bool,
}

impl Default for ObsOpts {
    fn default() -> Self {
        ObsOpts {
            rows: 7,
            cols: 7,
            view: false,
            values: true,
        }
    }
}

fn style_text(model: &Model, memo: &mut HashMap<i32, String>, idx: i32) -> String {
    if let Some(s) = memo.get(&idx) {
        return s.clone();
    }
    let t = match model.workbook.styles.cell_xfs.get(idx as usize) {
        Some(_) => style_of_index(model, idx),
        None => format!("<bad style index {}>", idx),
    };
    memo.insert(idx, t.clone());
    t
}

fn style_of_index(model: &Model, idx: i32) -> String {
    // Styles::get_style is crate-private; resolve through the public tables the same way.
    let st = &model.workbook.styles;
    let xf = &st.cell_xfs[idx as usize];
    let font = st.fonts.get(xf.font_id as usize);
    let fill = st.fills.get(xf.fill_id as usize);
    let border = st.borders.get(xf.border_id as usize);
    let fmt = ironcalc_base::number_format::get_num_fmt(xf.num_fmt_id, &st.num_fmts);
    format!(
        "fmt={:?} font={:?} fill={:?} border={:?} align={:?} qp={}",
        fmt, font, fill, border, xf.alignment, xf.quote_prefix
    )
}

pub fn style_str(s: &Style) -> String {
    format!(
        "fmt={:?} font={:?} fill={:?} border={:?} align={:?} qp={}",
        s.num_fmt,
        Some(&s.font),
        Some(&s.fill),
        Some(&s.border),
        s.alignment,
        s.quote_prefix
    )
}

/// Observation texts of a row / column that has no descriptor, measured on a fresh model.
fn defaults() -> &'static (String, String) {
    static D: std::sync::OnceLock<(String, String)> = std::sync::OnceLock::new();
    D.get_or_init(|| {
        let m = Model::new_empty("d", "en", "UTC", "en").expect("new_empty");
        (
            format!(
                "h={:?} hidden={:?} style=None",
                m.get_row_height(0, 100),
                m.is_row_hidden(0, 100)
            ),
            format!(
                "w={:?} hidden={:?} style=None",
                m.get_column_width(0, 100),
                m.is_column_hidden(0, 100)
            ),
        )
    })
}

pub fn default_style_str() -> String {
    style_str(&Style::default())
}

/// Rows / columns observed on a sheet: the base window plus everything stored.
pub fn window(model: &Model, sheet: usize, o: &ObsOpts) -> (BTreeSet<i32>, BTreeSet<i32>) {
    let ws = &model.workbook.worksheets[sheet];
    let mut rows: BTreeSet<i32> = (1..=o.rows).collect();
    let mut cols: BTreeSet<i32> = (1..=o.cols).collect();
    for (r, rd) in &ws.sheet_data {
        if !rd.is_empty() {
            rows.insert(*r);
        }
        for c in rd.keys() {
            cols.insert(*c);
        }
    }
    for (r, c) in ws.links.keys() {
        rows.insert(*r);
        cols.insert(*c);
    }
    for r in &ws.rows {
        rows.insert(r.r);
    }
    for c in &ws.cols {
        cols.insert(c.min);
        cols.insert(c.max);
    }
    // keep only coordinates inside the grid for getter calls (C27 judges the rest)
    rows.retain(|r| (1..=1_048_576).contains(r));
    cols.retain(|c| (1..=16_384).contains(c));
    (rows, cols)
}

pub fn observe_model(model: &Model, o: &ObsOpts) -> Obs {
    let mut m = Obs::new();
    let wb = &model.workbook;
    m.insert("wb.name".into(), wb.name.clone());
    m.insert("wb.locale".into(), model.get_locale());
    m.insert("wb.tz".into(), model.get_timezone());
    m.insert("wb.theme".into(), format!("{:?}", model.get_theme()));
    // named styles: sorted set name -> style + includes
    let mut names = model.get_named_style_list();
    names.sort();
    for n in &names {
        let st = model
            .get_named_style(n)
            .map(|s| style_str(&s))
            .unwrap_or_else(|e| format!("ERR {}", e));
        let inc = model
            .get_named_style_includes(n)
            .map(|s| format!("{:?}", s))
            .unwrap_or_else(|e| format!("ERR {}", e));
        m.insert(format!("wb.named_style[{}]", n), format!("{} inc={}", st, inc));
    }
    // defined names: sorted set
    for (name, scope, formula) in model.get_defined_name_list() {
        // scope is a sheet index; report it by sheet id to be stable across sheet moves? No: observable scope is the index.
        m.insert(
            format!("wb.defined_name[{}|{:?}]", name.to_uppercase(), scope),
            format!("{}={}", name, formula),
        );
    }
    let props = model.get_worksheets_properties();
    m.insert(
        "wb.sheets".into(),
        props
            .iter()
            .map(|p| format!("{}|{}|{}|{:?}", p.name, p.sheet_id, p.state, p.color))
            .collect::<Vec<_>>()
            .join(" ; "),
    );
    let mut memo: HashMap<i32, String> = HashMap::new();
    let default_style = default_style_str();
    let _ = &default_style;
    for (si, ws) in wb.worksheets.iter().enumerate() {
        let s = si as u32;
        let p = format!("s{}", si);
        m.insert(
            format!("{}.frozen", p),
            format!("{},{}", ws.frozen_rows, ws.frozen_columns),
        );
        m.insert(format!("{}.grid", p), format!("{}", ws.show_grid_lines));
        // links: sorted set
        match model.get_links_list(s) {
            Ok(list) => {
                for l in list {
                    if !l.dynamic || o.values {
                        m.insert(
                            format!("{}.link[R{}C{}]", p, l.row, l.column),
                            format!("{:?} dyn={}", l.link, l.dynamic),
                        );
                    }
                }
            }
            Err(e) => {
                m.insert(format!("{}.links", p), format!("ERR {}", e));
            }
        }
        // conditional formats stay ordered
        match model.get_conditional_formatting_list(s) {
            Ok(list) => {
                for (k, cf) in list.iter().enumerate() {
                    let dxf = model
                        .get_dxf_for_conditional_formatting(s, cf.index)
                        .map(|d| format!("{:?}", d))
                        .unwrap_or_else(|e| format!("ERR {}", e));
                    m.insert(
                        format!("{}.cf[{}]", p, k),
                        format!(
                            "range={} prio_rank={} idx={} rule={} dxf={}",
                            cf.range,
                            k,
                            cf.index,
                            strip_dxf_id(&format!("{:?}", cf.cf_rule)),
                            dxf
                        ),
                    );
                }
            }
            Err(e) => {
                m.insert(format!("{}.cf", p), format!("ERR {}", e));
            }
        }
        let (rows, cols) = window(model, si, o);
        for &r in &rows {
            let h = model.get_row_height(s, r);
            let hid = model.is_row_hidden(s, r);
            let st = model.get_row_style(s, r);
            let st_t = match st {
                Ok(None) => "None".to_string(),
                Ok(Some(x)) => {
                    let t = style_str(&x);
                    if t == default_style {
                        "None".to_string()
                    } else {
                        t
                    }
                }
                Err(e) => format!("ERR {}", e),
            };
            let v = format!("h={:?} hidden={:?} style={}", h, hid, st_t);
            if v != defaults().0 {
                m.insert(format!("{}.row[{}]", p, r), v);
            }
        }
        for &c in &cols {
            let w = model.get_column_width(s, c);
            let hid = model.is_column_hidden(s, c);
            let st = model.get_column_style(s, c);
            let st_t = match st {
                Ok(None) => "None".to_string(),
                Ok(Some(x)) => {
                    let t = style_str(&x);
                    if t == default_style {
                        "None".to_string()
                    } else {
                        t
                    }
                }
                Err(e) => format!("ERR {}", e),
            };
            let v = format!("w={:?} hidden={:?} style={}", w, hid, st_t);
            if v != defaults().1 {
                m.insert(format!("{}.col[{}]", p, c), v);
            }
        }
        for &r in &rows {
            for &c in &cols {
                let content = model
                    .get_localized_cell_content(s, r, c)
                    .unwrap_or_else(|e| format!("ERR {}", e));
                let sidx = model.get_cell_style_index(s, r, c).unwrap_or(-1);
                let style = style_text(model, &mut memo, sidx);
                let cell = ws.cell(r, c);
                let kind = match cell {
                    None => "none",
                    Some(Cell::EmptyCell { .. }) => "empty",
                    Some(Cell::BooleanCell { .. }) => "bool",
                    Some(Cell::NumberCell { .. }) => "number",
                    Some(Cell::ErrorCell { .. }) => "error",
                    Some(Cell::SharedString { .. }) => "string",
                    Some(Cell::CellFormula { .. }) => "formula",
                    Some(Cell::ArrayFormula { .. }) => "array",
                    Some(Cell::SpillCell { .. }) => "spill",
                };
                let arr = match cell {
                    Some(Cell::ArrayFormula { r, kind, .. }) => format!("{:?}{:?}", kind, r),
                    Some(Cell::SpillCell { a, .. }) => format!("child{:?}", a),
                    _ => String::new(),
                };
                let cp = format!("{}.R{}C{}", p, r, c);
                // an empty cell whose style is what an absent cell would resolve to (row style, then
                // column style, then default) is indistinguishable from an absent one by every getter
                let is_absent_like = content.is_empty()
                    && matches!(kind, "none" | "empty")
                    && (kind == "none" || sidx == fallback_style_index(ws, r, c));
                if is_absent_like {
                    continue;
                }
                m.insert(format!("{}.content", cp), content);
                let k2 = if kind == "none" { "empty" } else { kind };
                // a spill cell is derived state: record kind only with values
                if kind != "spill" || o.values {
                    m.insert(format!("{}.kind", cp), k2.to_string());
                }
                m.insert(format!("{}.style", cp), style);
                if !arr.is_empty() && (o.values || kind == "array") {
                    m.insert(format!("{}.arr", cp), arr);
                }
                if o.values {
                    let v = model
                        .get_cell_value_by_index(s, r, c)
                        .map(|v| format!("{:?}", v))
                        .unwrap_or_else(|e| format!("ERR {}", e));
                    let f = model
                        .get_formatted_cell_value(s, r, c)
                        .unwrap_or_else(|e| format!("ERR {}", e));
                    let t = model
                        .get_cell_type(s, r, c)
                        .map(|t| format!("{:?}", t))
                        .unwrap_or_else(|e| format!("ERR {}", e));
                    m.insert(format!("{}.value", cp), v);
                    m.insert(format!("{}.text", cp), f);
                    m.insert(format!("{}.type", cp), t);
                    // the conditional-formatting overlay, when it changes what the cell looks like
                    if !ws.conditional_formatting.is_empty() {
                        match model.get_extended_style_for_cell(s, r, c) {
                            Ok(ext) => {
                                let est = style_str(&ext.style);
                                let deco = format!("{:?}{:?}{:?}", ext.icon.is_some(), ext.data_bar.is_some(), ext.rating.is_some());
                                let base = m.get(&format!("{}.style", cp)).cloned().unwrap_or_default();
                                if est != base || deco != "falsefalsefalse" {
                                    m.insert(format!("{}.cfstyle", cp), format!("{} deco={}", est, deco));
                                }
                            }
                            Err(e) => {
                                m.insert(format!("{}.cfstyle", cp), format!("ERR {}", e));
                            }
                        }
                    }
                }
            }
        }
        if o.view {
            if let Some(v) = ws.views.get(&0) {
                m.insert(
                    format!("{}.view", p),
                    format!("row={} col={} range={:?}", v.row, v.column, v.range),
                );
            }
        }
    }
    if o.view {
        m.insert(
            "wb.view.sheet".into(),
            format!("{:?}", wb.views.get(&0).map(|v| v.sheet)),
        );
    }
    m
}

fn fallback_style_index(ws: &ironcalc_base::types::Worksheet, row: i32, column: i32) -> i32 {
    for r in &ws.rows {
        if r.r == row {
            if r.custom_format {
                return r.s;
            }
            break;
        }
    }
    for c in &ws.cols {
        if column >= c.min && column <= c.max {
            return c.style.unwrap_or(0);
        }
    }
    0
}

/// The dxf_id inside a rule is an index into a pool; the dxf itself is observed separately.
fn strip_dxf_id(s: &str) -> String {
    let mut out = String::new();
    let mut rest = s;
    while let Some(i) = rest.find("dxf_id: ") {
        out.push_str(&rest[..i]);
        out.push_str("dxf_id: _");
        let tail = &rest[i + 8..];
        let n = tail
            .find(|ch: char| !ch.is_ascii_digit())
            .unwrap_or(tail.len());
        rest = &tail[n..];
    }
    out.push_str(rest);
    out
}

pub fn observe(um: &UserModel, o: &ObsOpts) -> Obs {
    observe_model(um.get_model(), o)
}

/// Differing field paths with (left, right) texts.
pub fn diff(a: &Obs, b: &Obs) -> Vec<(String, String, String)> {
    let mut out = vec![];
    let keys: BTreeSet<&String> = a.keys().chain(b.keys()).collect();
    for k in keys {
        let x = a.get(k).map(|s| s.as_str()).unwrap_or("<absent>");
        let y = b.get(k).map(|s| s.as_str()).unwrap_or("<absent>");
        if x != y {
            out.push((k.clone(), x.to_string(), y.to_string()));
        }
    }
    out
}

pub fn digest(o: &Obs) -> u128 {
    let mut s = String::new();
    for (k, v) in o {
        s.push_str(k);
        s.push('\u{1}');
        s.push_str(v);
        s.push('\u{2}');
    }
    crate::env::digest(&s)
}

/// Field class of a path: "s0.R3C2.value" -> "cell.value"; "s1.row[3]" -> "row"; "wb.defined_name[..]" -> "wb.defined_name"
pub fn field_class(path: &str) -> String {
    let mut parts = path.splitn(2, '.');
    let head = parts.next().unwrap_or("");
    let rest = parts.next().unwrap_or("");
    let strip = |s: &str| s.split('[').next().unwrap_or("").to_string();
    if head == "wb" {
        return format!("wb.{}", strip(rest));
    }
    if rest.starts_with('R') && rest.contains('C') && rest.contains('.') {
        let f = rest.rsplit('.').next().unwrap_or("");
        return format!("cell.{}", f);
    }
    strip(rest)
}

pub fn diff_text(d: &[(String, String, String)], max: usize) -> String {
    let mut s = String::new();
    for (k, a, b) in d.iter().take(max) {
        s.push_str(&format!("{}: expected `{}` observed `{}`\n", k, a, b));
    }
    if d.len() > max {
        s.push_str(&format!("... {} more fields\n", d.len() - max));
    }
    s
}

/// Canonical key of the *whole* model state (finer than Obs): used for explicit-state dedup.
pub fn state_key(model: &Model) -> u128 {
    crate::env::digest(&state_text(model))
}

/// Canonical text of the whole model state (every Workbook field, maps sorted).
pub fn state_text(model: &Model) -> String {
    let wb = &model.workbook;
    let mut s = String::new();
    use std::fmt::Write;
    let _ = write!(
        s,
        "{:?}|{:?}|{:?}|{:?}|{:?}|{:?}|",
        wb.shared_strings, wb.defined_names, wb.styles, wb.name, wb.settings, wb.theme
    );
    let mut views: Vec<_> = wb.views.iter().collect();
    views.sort_by_key(|(k, _)| **k);
    let _ = write!(s, "{:?}|", views);
    let mut tables: Vec<_> = wb.tables.iter().collect();
    tables.sort_by(|a, b| a.0.cmp(b.0));
    let _ = write!(s, "{:?}|", tables);
    for ws in &wb.worksheets {
        let _ = write!(
            s,
            "WS {:?} {:?} {:?} {:?} {:?} {:?} {:?} {:?} {:?} {:?} {:?} {:?} {:?}",
            ws.name,
            ws.sheet_id,
            ws.state,
            ws.color,
            ws.cols,
            ws.rows,
            ws.shared_formulas,
            ws.merge_cells,
            ws.comments,
            ws.frozen_rows,
            ws.frozen_columns,
            ws.show_grid_lines,
            ws.conditional_formatting
        );
        let mut v: Vec<_> = ws.views.iter().collect();
        v.sort_by_key(|(k, _)| **k);
        let _ = write!(s, "{:?}", v);
        let mut l: Vec<_> = ws.links.iter().collect();
        l.sort_by_key(|(k, _)| **k);
        let _ = write!(s, "{:?}", l);
        let mut rows: Vec<_> = ws.sheet_data.iter().collect();
        rows.sort_by_key(|(k, _)| **k);
        for (r, rd) in rows {
            let mut cs: Vec<_> = rd.iter().collect();
            cs.sort_by_key(|(k, _)| **k);
            let _ = write!(s, "r{}{:?}", r, cs);
        }
    }
    let _ = write!(s, "lang={}", model.get_language());
    s
}
